"""Apply a rendering (spec/Surface.tla) to a token list from the independent renderer."""
from __future__ import annotations
import re
from . import concretise, vocab

SEPS = {
    "SP": " ", "SP3": "   ", "TAB": "\t", "FF": " \f ", "LF": "\n", "CRLF": "\r\n", "LFLF": "\n\n  ",
    "HASH": "  # a comment with \"quotes\" END LAYER\n", "CC": " /* c-style 'comment' */ ",
    "CCML": " /* first line\n   second line END */\n", "MIX": "\t \r\n \t",
    # comments with no white space around them (the comment alone separates the tokens)
    "CCT": "/* tight */", "CCMLT": "/*\n*/", "HASHT": "# tight\n",
    # runs of asterisks in front of the closing */ (even and odd), the shortest comments
    "CCSTAR": " /** doc **/ ", "CCSTARS": "/***/", "CCEMPTY": " /**/ /**** boxed ****/ ",
}
KEYWORD_ROLES = {"opener", "end", "key", "kvopen", "kvend", "projopen", "projend", "ptsopen", "ptsend"}
BARE_OK_ROLES = {"val", "kvkey", "kvval", "cfgkey", "cfgval"}
BARE_RE = re.compile(r"^[A-Za-z_\xc0-\xff][A-Za-z0-9_\xc0-\xff\-:]*$")
LOGICAL_RE = re.compile(r"(?<![\w\[\]'\"`])(AND|OR|NOT)(?![\w\[\]'\"`])")
_words = None


def vocabulary_words():
    global _words
    if _words is None:
        v = vocab.get()
        w = set(concretise.BLOCK_WORDS) | {"auto", "hilite", "selected", "normal", "not", "and", "or", "in", "eq", "ne", "lt", "le", "gt",
                                           "ge", "like"}
        for t, td in v["schema"]["types"].items():
            w |= set(td["props"].keys())
        w |= set(x.lower() for x in v["tokens"].get("composite_names", []))
        w |= set(x.lower() for x in v["tokens"].get("symbol_attributes", []))
        _words = w
    return _words


def default_seps(toks, indent=2):
    out = []
    for i, t in enumerate(toks):
        if i == 0:
            out.append("")
        elif t.first:
            out.append("\n" + " " * (indent * t.depth))
        else:
            out.append(" ")
    return out


def variant(conc, tok, kind):
    """token text under a case / quote variant; None when the variant does not apply to this token"""
    if kind in ("U", "l", "M"):
        if tok.role in KEYWORD_ROLES:
            return concretise.case(tok.text, kind)
        v = tok.extra if isinstance(tok.extra, dict) else None
        if v is not None and v.get("sh") == "bool":
            return concretise.case(tok.text, kind)
        if v is not None and v.get("sh") == "expr":
            # the logical operator keywords of an expression (the lexeme is stored in normal form with AND / OR / NOT in
            # upper case whatever their spelling; comparison words such as eq / in keep their spelling and are left alone)
            return LOGICAL_RE.sub(lambda m: concretise.case(m.group(0), kind), tok.text)
        return None
    v = tok.extra if isinstance(tok.extra, dict) else None
    if v is None or v.get("sh") not in ("str", "char", "strpat", "kvkey", "cfgkey"):
        return None
    if tok.text[:1] not in "\"'":
        return None                      # already bare
    c = conc.content(v)
    if kind == "DQ":
        return '"' + c + '"' if '"' not in c else None
    if kind == "SQ":
        return "'" + c + "'" if "'" not in c else None
    if kind == "BARE":
        if tok.role in BARE_OK_ROLES and BARE_RE.match(c) and c.lower() not in vocabulary_words():
            return c
    return None


def apply(conc, toks, rend):
    """-> (texts, seps, applied) where applied lists the (pos, kind) choices that took effect"""
    seps = default_seps(toks)
    texts = [t.text for t in toks]
    applied = []

    def choose(i, kind):
        if kind in SEPS:
            seps[i] = SEPS[kind]          # replaces the canonical separator (several keywords per line are fine)
            applied.append((i, kind))
        else:
            t = variant(conc, toks[i], kind)
            if t is not None and t != texts[i]:
                texts[i] = t
                applied.append((i, kind))

    if rend["mode"] == "devs":
        for dv in rend["devs"]:
            i = dv["pos"] - 1
            if i < len(toks):
                choose(i, dv["kind"])
    else:
        vec = rend["vec"]
        for i in range(len(toks)):
            c = vec[i % len(vec)]
            choose(i, c["sep"])
            choose(i, c["cs"])
            choose(i, c["q"])
    # a '#' comment must end its line; two tokens must stay separated
    for i in range(1, len(toks)):
        if seps[i] == "":
            seps[i] = " "
    return texts, seps, applied


def text_of(texts, seps):
    return "".join(s + t for s, t in zip(seps, texts)) + "\n"
