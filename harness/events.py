"""Comparison of the line events a specification predicts (spec/Writer.tla) with the events the
independent reader extracted from printer output."""
from __future__ import annotations
import re

INT_RE = re.compile(r"^[-+]?\d+$")


def val_ok(conc, ev, got):
    """ev: {"cls", "v"} from the spec; got: (cls, text, content) from mapreader. -> None or reason"""
    cls, text, content = got
    want = conc.expected(ev["v"])
    if ev["cls"] != cls:
        return "lexical-class:%s->%s" % (ev["cls"], cls)
    if cls == "Q":
        if content != want:
            return "string-content"
    elif cls == "B":
        if isinstance(want, bool):
            if text.upper() != ("TRUE" if want else "FALSE"):
                return "boolean"
        elif not isinstance(want, str) or text.lower() != want.lower():
            return "word"
    elif cls == "V":
        if text != want:
            return "verbatim"
    elif cls == "N":
        if isinstance(want, bool):
            if text.upper() != ("TRUE" if want else "FALSE"):
                return "boolean"
        elif isinstance(want, int):
            if not INT_RE.match(text) or int(text) != want:
                return "int"
        elif isinstance(want, float):
            try:
                f = float(text)
            except ValueError:
                return "float"
            if f != want or INT_RE.match(text):
                return "float"
        else:
            return "number-expected"
    return None


def shape_of(ev):
    v = ev["v"]
    return v["of"]["sh"] if "of" in v else v["py"]


def where(e):
    if e.get("t"):
        return "%s.%s" % (e["t"], e["key"])
    return e["key"]


def compare(conc, expected, got, problems=()):
    """-> None or (index, kind, detail, where, shape)"""
    n = min(len(expected), len(got))
    for i in range(n):
        e, g = expected[i], got[i]
        if e["kind"] != g["kind"] or e["lvl"] != g["lvl"] or e["key"] != g["key"]:
            return (i, "line", "expected %s/%s/%s got %s/%s/%s" % (e["lvl"], e["kind"], e["key"], g["lvl"], g["kind"], g["key"]),
                    where(e) or g["key"], ",".join(shape_of(x) for x in e["vals"]))
        if len(e["vals"]) != len(g["vals"]):
            return (i, "arity", "expected %d values got %d: %r" % (len(e["vals"]), len(g["vals"]), [x[1] for x in g["vals"]]),
                    where(e), ",".join(shape_of(x) for x in e["vals"]))
        for ev, gv in zip(e["vals"], g["vals"]):
            why = val_ok(conc, ev, gv)
            if why:
                return (i, why, "expected %s %r got %s %r" % (ev["cls"], conc.expected(ev["v"]), gv[0], gv[1]),
                        where(e), shape_of(ev))
    if len(expected) != len(got):
        return (n, "line-count", "expected %d lines got %d" % (len(expected), len(got)), "", "")
    if problems:
        return (n, "structure", problems[0], "", "")
    return None


def reference_text(conc, expected, quote='"', indent=4):
    """mappyfile-free rendering of predicted events (used only to self-test the reader)"""
    out = []
    for e in expected:
        pad = " " * (indent * e["lvl"])
        if e["kind"] == "open":
            out.append(pad + e["key"].upper())
        elif e["kind"] == "end":
            out.append(pad + "END")
        else:
            vs = []
            for ev in e["vals"]:
                w = conc.expected(ev["v"])
                if ev["cls"] == "Q":
                    vs.append(quote + w + quote)
                elif ev["cls"] == "N":
                    vs.append(("TRUE" if w else "FALSE") if isinstance(w, bool) else repr(w))
                elif ev["cls"] == "B":
                    vs.append(("TRUE" if w else "FALSE") if isinstance(w, bool) else w.upper())
                else:
                    vs.append(w)
            out.append(pad + (e["key"].upper() + " " if e["kind"] == "attr" else "") + " ".join(vs))
    return "\n".join(out)
