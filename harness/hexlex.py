"""Exhaustive hex-colour lexeme family (spec/HexLex.tla) replayed into the real reader and writer."""
from __future__ import annotations
from . import tlc, common


def behaviours(ck, max_len, tag="hexlex"):
    cfg = tlc.cfg_text(constants={"MaxLen": max_len, "LongLen": 9}, invariants=["StoredIdem", "ColourStays", "NonHexNever", "Emit"])
    r = tlc.run("HexLex", cfg, tag=tag, workers=8, timeout=1800)
    if r.violated:
        raise common.MachineryFailure("HexLex model law %s violated" % r.violated)
    if ck is not None:
        ck.add_tlc(tag, r)
    out = [p for p in r.prints if isinstance(p, dict) and "stored" in p]
    if len(out) < 50:
        raise common.MachineryFailure("HexLex model emitted %d lexemes" % len(out))
    return out


def template(lex, lex2):
    return ("STYLE\n  COLOR %s\n  OUTLINECOLOR %s\n  COLORRANGE %s %s\n  SYMBOL 'after'\nEND\n" % (lex, lex2, lex, lex2))


def run(ck, prop, tier, loads, dumper):
    bs = behaviours(ck, 4 if tier == "quick" else 6, tag="hexlex_" + prop.lower())
    n = 0
    for j, b in enumerate(bs):
        src_s = "#" + "".join(b["s"])
        want = "#" + "".join(b["stored"])
        kind = "hex%d" % len(b["s"]) if b["hex"] else "string%d" % len(b["s"])
        if prop == "C01" and tier == "quick" and not b["hex"] and j % 3:
            continue
        for q in ('"', "'"):
            o = "'" if q == '"' else '"'
            ck.count()
            n += 1
            src = template(q + src_s + q, o + src_s + o)
            pair_ok = b["hex"]          # COLORRANGE takes two hex colours (or six integers): a plain string pair is not a Mapfile
            if not pair_ok:
                src = src.replace("  COLORRANGE %s %s\n" % (q + src_s + q, o + src_s + o), "")
            try:
                d = loads(src)
            except Exception as ex:  # noqa: BLE001
                if prop == "C02":
                    ck.violation("C02|hex|rejected|%s|%s" % (kind, "dq" if q == '"' else "sq"), "the quoted string %s%s%s is rejected (%s)" % (q, src_s, q, type(ex).__name__),
                                 {"text": src})
                continue
            got = [d.get("color"), d.get("outlinecolor")] + (list(d.get("colorrange", [])) if pair_ok else [])
            exp = [want, want] + ([want, want] if pair_ok else [])
            if prop == "C02":
                if got != exp:
                    ck.violation("C02|hex|value|%s|%s" % (kind, "dq" if q == '"' else "sq"), "%s%s%s is loaded as %r, the contract says %r" % (q, src_s, q, got, exp), {"text": src})
                continue
            for qo in ('"', "'"):
                try:
                    t1 = dumper(quote=qo)(d)
                    d2 = loads(t1)
                    got2 = [d2.get("color"), d2.get("outlinecolor")] + (list(d2.get("colorrange", [])) if pair_ok else [])
                    ok = got2 == got and d2.get("symbol") == "after"
                    what = "changes %r into %r" % (got, got2)
                except Exception as ex:  # noqa: BLE001
                    ok, what = False, "is rejected / raises (%s)" % type(ex).__name__
                if not ok:
                    ck.violation("C01|hex|%s|out=%s" % (kind, "dq" if qo == '"' else "sq"), "round trip of %s under output quote %s %s" % (src_s, qo, what), {"text": src})
    ck.notes.append("hex-colour family (spec/HexLex.tla): %d lexemes x quote replayed for %s" % (n, prop))
    return n
