"""Exhaustive attribute-binding lexeme family (spec/BindLex.tla) replayed into the real reader and writer."""
from __future__ import annotations
from . import tlc, common

# (template with %s for the lexeme, path of the value(s), witnesses that must survive)
SLOTS = [
    ("size", "STYLE\n  WIDTH 1\n  SIZE %s\n  GAP 2\nEND\n", lambda d: [d.get("size")], 1, lambda d: (d.get("width"), d.get("gap")) == (1, 2)),
    ("color", "LABEL\n  FONT 'f'\n  COLOR %s\n  SIZE 2\nEND\n", lambda d: [d.get("color")], 1, lambda d: (d.get("font"), d.get("size")) == ("f", 2)),
    ("pair", "STYLE\n  WIDTH 1\n  OFFSET %s %s\n  GAP 2\nEND\n", lambda d: list(d.get("offset", [])), 2, lambda d: (d.get("width"), d.get("gap")) == (1, 2)),
    ("mixed", "STYLE\n  WIDTH 1\n  OFFSET 3 %s\n  GAP 2\nEND\n", lambda d: list(d.get("offset", []))[1:], 1,
     lambda d: (d.get("width"), d.get("gap"), list(d.get("offset", [None]))[0]) == (1, 2, 3)),
    ("text", "CLASS\n  NAME 'n'\n  TEXT %s\n  GROUP 'g'\nEND\n", lambda d: [d.get("text")], 1, lambda d: (d.get("name"), d.get("group")) == ("n", "g")),
]


def behaviours(ck, max_len, tag="bindlex"):
    cfg = tlc.cfg_text(constants={"MaxLen": max_len}, invariants=["StoredIsStripped", "PadIrrelevant", "BracketsAtEnds", "Emit"])
    r = tlc.run("BindLex", cfg, tag=tag, workers=8, timeout=1800)
    if r.violated:
        raise common.MachineryFailure("BindLex model law %s violated" % r.violated)
    if ck is not None:
        ck.add_tlc(tag, r)
    out = [p for p in r.prints if isinstance(p, dict) and "stored" in p]
    if len(out) < 50:
        raise common.MachineryFailure("BindLex model emitted %d lexemes" % len(out))
    return out


def run(ck, prop, tier, loads, dumper):
    bs = behaviours(ck, 2 if tier == "quick" else 4, tag="bindlex_" + prop.lower())
    n = 0
    for b in bs:
        lex = "".join(b["source"])
        want = "".join(b["stored"])
        kind = "len%d%s" % (len(b["n"]), "pad" if b["pad"] else "") + ("kw" if any(len(x) > 1 for x in b["n"]) else "")
        if prop == "C05" and not b["pad"]:
            continue                    # C05 compares the padded form with the tight one
        for name, tmpl, get, k, witness in SLOTS:
            src = tmpl.replace("%s", lex)
            ck.count()
            n += 1
            try:
                d = loads(src)
            except Exception as ex:  # noqa: BLE001
                if prop in ("C02", "C05"):
                    ck.violation("%s|bindlex|rejected|%s|%s" % (prop, kind, name), "the attribute binding %s is rejected (%s)" % (lex, type(ex).__name__), {"text": src})
                continue
            if prop == "C02":
                if get(d) != [want] * k or not witness(d):
                    ck.violation("C02|bindlex|value|%s|%s" % (kind, name), "%s is loaded as %r (neighbours kept: %s), the contract says %r" % (lex, get(d), witness(d), want),
                                 {"text": src})
            elif prop == "C05":
                tight = tmpl.replace("%s", want)
                try:
                    ok, what = loads(tight) == d, "changes the result (%r)" % get(d)
                except Exception as ex:  # noqa: BLE001
                    ok, what = False, "is accepted while the tight form is rejected (%s)" % type(ex).__name__
                if not ok:
                    ck.violation("C05|bindlex|pad|%s|%s" % (kind, name), "blanks inside the brackets of %s: %s" % (want, what), {"text": src, "tight": tight})
            else:
                for qo in ('"', "'"):
                    try:
                        d2 = loads(dumper(quote=qo)(d))
                        ok, what = d2 == d, "changes %r into %r" % (get(d), get(d2))
                    except Exception as ex:  # noqa: BLE001
                        ok, what = False, "is rejected / raises (%s)" % type(ex).__name__
                    if not ok:
                        ck.violation("C01|bindlex|%s|%s|out=%s" % (kind, name, "dq" if qo == '"' else "sq"), "round trip of %s under output quote %s %s" % (lex, qo, what),
                                     {"text": src})
    ck.notes.append("attribute-binding family (spec/BindLex.tla): %d lexeme x slot documents replayed for %s" % (n, prop))
    return n
