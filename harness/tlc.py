"""Thin runner around TLC (tla2tools 1.8).  stdlib only.

run(module, cfg, mode=...) copies spec/*.tla and build/Vocab.tla into a private run directory under
build/tlc/<tag>/, writes the cfg, runs TLC under an outer timeout and returns a Result with
  .rc, .out (stdout text), .prints (PrintT payloads, JSON-decoded when they are ToJson strings),
  .states/.distinct/.depth (final report), .violated (invariant / property name or None),
  .coverage (action -> count, when coverage=True)

Exit-code taxonomy (see DESIGN.md section 6): a TLC crash or an unexpected TLC error raises
TLCFailure, which callers turn into exit 2 (machinery failure), never into a VIOLATION.
"""
from __future__ import annotations
import glob
import json
import os
import re
import shutil
import subprocess
import time

HERE = os.path.dirname(os.path.abspath(__file__))
VERIF = os.path.dirname(HERE)
SPEC = os.path.join(VERIF, "spec")
BUILD = os.path.join(VERIF, "build")
JAR = "/opt/veriftools/tla/tla2tools.jar:/opt/veriftools/tla/CommunityModules-deps.jar"


class TLCFailure(Exception):
    pass


class Result:
    def __init__(self):
        self.rc = None
        self.out = ""
        self.prints = []
        self.states = self.distinct = self.depth = None
        self.violated = None
        self.coverage = {}
        self.wall = 0.0
        self.dir = None
        self.errors = []

    def summary(self):
        return {"rc": self.rc, "states": self.states, "distinct": self.distinct,
                "depth": self.depth, "violated": self.violated, "wall_s": round(self.wall, 2)}


def rundir(tag):
    # one directory per (tag, process): concurrent runs of the same check must not share TLC work files
    d = os.path.join(BUILD, "tlc", "%s.%d" % (tag, os.getpid()))
    if os.path.isdir(d):
        shutil.rmtree(d)
    os.makedirs(d)
    for f in glob.glob(os.path.join(SPEC, "*.tla")):
        shutil.copy(f, d)
    # the vocabulary of the tree under test is written straight into the run directory (no shared file)
    from . import vocab as _vocab
    _vocab.emit_tla(_vocab.get(), os.path.join(d, "Vocab.tla"))
    return d


def cfg_text(constants=None, init="Init", next_="Next", spec=None, invariants=(), properties=(),
             constraints=(), action_constraints=(), view=None, postcondition=None,
             deadlock=False, symmetry=None):
    L = []
    if spec:
        L.append("SPECIFICATION %s" % spec)
    else:
        L.append("INIT %s" % init)
        L.append("NEXT %s" % next_)
    if constants:
        L.append("CONSTANTS")
        for k, v in constants.items():
            L.append("  %s = %s" % (k, tla_value(v)))
    for i in invariants:
        L.append("INVARIANT %s" % i)
    for p in properties:
        L.append("PROPERTY %s" % p)
    for c in constraints:
        L.append("CONSTRAINT %s" % c)
    for c in action_constraints:
        L.append("ACTION_CONSTRAINT %s" % c)
    if view:
        L.append("VIEW %s" % view)
    if postcondition:
        L.append("POSTCONDITION %s" % postcondition)
    L.append("CHECK_DEADLOCK %s" % ("TRUE" if deadlock else "FALSE"))
    return "\n".join(L) + "\n"


def tla_value(v):
    if isinstance(v, bool):
        return "TRUE" if v else "FALSE"
    if isinstance(v, int):
        return str(v)
    if isinstance(v, str):
        if v.startswith("@"):            # raw TLA+ text, e.g. "@{1,2,3}"
            return v[1:]
        return '"%s"' % v
    if isinstance(v, (set, frozenset)):
        return "{" + ", ".join(tla_value(x) for x in sorted(v, key=str)) + "}"
    if isinstance(v, (list, tuple)):
        return "<<" + ", ".join(tla_value(x) for x in v) + ">>"
    raise TypeError(v)


_num = r"([0-9,]+)"


def run(module, cfg, tag=None, mode="check", workers=None, simulate=None, depth=None, seed=None,
        timeout=600, coverage=False, env=None, extra=(), keep=True, heap="4g", dfs=False,
        allow_violation=False):
    """mode: "check" (BFS model checking) or "simulate" (simulate = "num=N").
    Returns Result.  Raises TLCFailure on crashes/timeouts/parse errors."""
    tag = tag or module
    d = rundir(tag)
    with open(os.path.join(d, module + ".cfg"), "w") as f:
        f.write(cfg)
    cmd = ["java", "-XX:+UseParallelGC", "-Xmx" + heap, "-Xss512m"]
    if dfs:
        cmd.append("-Dtlc2.tool.queue.IStateQueue=StateDeque")
    cmd += ["-cp", JAR, "tlc2.TLC", "-metadir", os.path.join(d, "states"), "-noGenerateSpecTE",
            "-config", module + ".cfg"]
    if workers is None:
        workers = 1
    cmd += ["-workers", str(workers)]
    if mode == "simulate":
        cmd += ["-simulate", simulate or "num=100"]
        if depth:
            cmd += ["-depth", str(depth)]
    if seed is not None:
        cmd += ["-seed", str(seed)]
    if coverage:
        cmd += ["-coverage", "1"]
    cmd += list(extra)
    cmd.append(module + ".tla")
    if os.environ.get("VERIF_EXPORT_CFG"):
        # keep a readable copy of every configuration the checks run (spec/cfg/<tag>.cfg), with the TLC command line
        out = os.path.join(SPEC, "cfg")
        os.makedirs(out, exist_ok=True)
        trace = (env or {}).get("TRACE_FILE")
        shown = [c if not c.startswith(BUILD) else "<rundir>/states" for c in cmd[cmd.index("tlc2.TLC"):]]
        with open(os.path.join(out, "%s.cfg" % re.sub(r"[^A-Za-z0-9_.-]", "_", re.sub(r"_\d+$", "", tag))), "w") as f:
            f.write("\\* module %s.tla; run as: java -cp tla2tools.jar %s%s\n\\* (Vocab.tla is generated from the tree under test by harness/vocab.py: check.py setup)\n%s"
                    % (module, " ".join(shown), ("   with TRACE_FILE=<ndjson of recorded executions>" if trace else ""), cfg))
    e = dict(os.environ)
    if env:
        e.update({k: str(v) for k, v in env.items()})
    t0 = time.time()
    try:
        p = subprocess.run(cmd, cwd=d, env=e, stdout=subprocess.PIPE, stderr=subprocess.STDOUT,
                           timeout=timeout, text=True, errors="replace")
    except subprocess.TimeoutExpired as ex:
        raise TLCFailure("TLC timeout after %ss: %s" % (timeout, " ".join(cmd))) from ex
    r = Result()
    r.wall = time.time() - t0
    r.rc = p.returncode
    r.out = p.stdout
    r.dir = d
    parse_output(r)
    shutil.rmtree(os.path.join(d, "states"), ignore_errors=True)
    failed = r.rc != 0 or r.violated
    if not keep or not failed:
        shutil.rmtree(d, ignore_errors=True)      # kept only when something went wrong (for inspection)
    bad = [x for x in r.errors if not x.startswith("Invariant") and not x.startswith("Temporal")
           and not x.startswith("Action property") and not x.startswith("Deadlock")]
    if bad or (r.rc not in (0,) and not r.violated) or (r.violated and not allow_violation and False):
        tail = "\n".join(r.out.splitlines()[-40:])
        raise TLCFailure("TLC failed rc=%s module=%s errors=%s\n%s" % (r.rc, module, bad[:3], tail))
    return r


def parse_output(r):
    lines = r.out.splitlines()
    i = 0
    while i < len(lines):
        ln = lines[i]
        if ln.startswith('"') and ln.endswith('"') and len(ln) >= 2:
            # PrintT of a string (typically ToJson(...))
            try:
                s = json.loads(ln)
                try:
                    r.prints.append(json.loads(s))
                except ValueError:
                    r.prints.append(s)
            except ValueError:
                r.prints.append(ln)
        elif ln.startswith("<<") or ln.startswith("[") or ln.startswith("{"):
            r.prints.append(("RAW", ln))
        m = re.match(r"^" + _num + r" states generated, " + _num + r" distinct states found", ln)
        if m:
            r.states = int(m.group(1).replace(",", ""))
            r.distinct = int(m.group(2).replace(",", ""))
        m = re.match(r"^The depth of the complete state graph search is " + _num, ln)
        if m:
            r.depth = int(m.group(1).replace(",", ""))
        m = re.match(r"^Error: Invariant (\S+) is violated", ln)
        if m:
            r.violated = m.group(1)
            r.errors.append("Invariant " + m.group(1))
        elif re.match(r"^Error: Action property (\S+) is violated", ln):
            r.violated = re.match(r"^Error: Action property (\S+)", ln).group(1)
            r.errors.append("Action property " + r.violated)
        elif ln.startswith("Error: Temporal properties were violated"):
            r.violated = "temporal"
            r.errors.append("Temporal")
        elif ln.startswith("Error: Deadlock reached"):
            r.violated = "deadlock"
            r.errors.append("Deadlock")
        elif ln.startswith("Error:"):
            # TLC prints the behaviour after the violation with "Error: The behavior up to this point is"
            if "behavior up to this point" in ln or "The following behavior constitutes" in ln:
                pass
            else:
                nxt = lines[i + 1] if i + 1 < len(lines) else ""
                r.errors.append(ln + " " + nxt)
        m = re.match(r"^<(\w+) line (\d+), col (\d+) to line (\d+), col (\d+) of module (\w+)>: (\d+):(\d+)", ln)
        if m:
            r.coverage[m.group(1)] = r.coverage.get(m.group(1), 0) + int(m.group(8))
        i += 1
    if r.states is None:
        # simulation mode reports differently
        m = re.search(r"The number of states generated: " + _num, r.out)
        if m:
            r.states = int(m.group(1).replace(",", ""))
    return r


def error_trace(r):
    """Extract 'State n: <action>' blocks printed by TLC after a violation (raw text)."""
    out = []
    cur = None
    for ln in r.out.splitlines():
        if re.match(r"^State \d+:", ln):
            cur = [ln]
            out.append(cur)
        elif cur is not None:
            if ln.strip() == "" or ln.startswith("Error:") or re.match(r"^\d+ states generated", ln):
                cur = None
            else:
                cur.append(ln)
    return ["\n".join(x) for x in out]


def sany(module_path):
    p = subprocess.run(["java", "-cp", JAR, "tla2sany.SANY", module_path], stdout=subprocess.PIPE,
                       stderr=subprocess.STDOUT, text=True, cwd=os.path.dirname(module_path))
    ok = p.returncode == 0 and "*** Errors" not in p.stdout and "Fatal" not in p.stdout
    return ok, p.stdout
