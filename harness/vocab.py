"""Vocabulary extractor (stdlib only, never imports mappyfile).

Reads the *current working tree* of /repo on every run and produces
  build/vocab.json  - the tables, for the Python harness
  build/Vocab.tla   - the same tables as TLA+ constants (module Vocab)

Sources:  mapfile.lark (block types, attr keywords), tokens.py (singleton / object-list /
repeated / complex tables), parser.py (SYMBOL_ATTRIBUTES), schemas/*.json (own $ref resolver).
"""
from __future__ import annotations
import ast
import json
import os
import re
import sys

REPO = os.environ.get("VERIF_REPO", "/repo")
HERE = os.path.dirname(os.path.abspath(__file__))
VERIF = os.path.dirname(HERE)
BUILD = os.path.join(VERIF, "build")

KV_TYPES = ("metadata", "validation", "values", "connectionoptions")


def _read(p):
    with open(p, encoding="utf-8") as f:
        return f.read()


# ---------------------------------------------------------------- grammar
def grammar_tables(repo=REPO):
    g = _read(os.path.join(repo, "mappyfile", "mapfile.lark"))
    m = re.search(r"!composite_type:(.*?)\n\s*\n", g, re.S)
    block_types = [w.lower() for w in re.findall(r'"([A-Z]+)"i?', m.group(1))]
    block_ci = dict((w.lower(), q == "i") for w, q in re.findall(r'"([A-Z]+)"(i?)', m.group(1)))
    m2 = re.search(r"!_attr_keyword:(.*?)\n", g)
    attr_keywords = [w.lower() for w in re.findall(r'"([A-Z]+)"i?', m2.group(1))]
    m3 = re.search(r"!compare_op:(.*?)\n\s*\n", g, re.S)
    compare_ops = re.findall(r'"([^"]+)"i?', m3.group(1))
    kv_in_grammar = [k for k in KV_TYPES if re.search(r'^!%s:' % k, g, re.M)]
    has_symbolset = bool(re.search(r'"SYMBOLSET"i?', g))
    return {
        "block_types": block_types,
        "block_case_insensitive": block_ci,
        "attr_keywords": attr_keywords,
        "compare_ops": compare_ops,
        "kv_types": kv_in_grammar,
        "symbolset": has_symbolset,
    }


# ---------------------------------------------------------------- tokens.py / parser.py
def token_tables(repo=REPO):
    src = _read(os.path.join(repo, "mappyfile", "tokens.py"))
    ns: dict = {}
    exec(compile(src, "tokens.py", "exec"), ns)  # the file contains only literal tables
    out = {}
    for name in ("COMPLEX_TYPES", "COMPOSITE_NAMES", "SINGLETON_COMPOSITE_NAMES",
                 "REPEATED_KEYS", "OBJECT_LIST_KEYS", "ATTRIBUTE_NAMES"):
        if name in ns:
            out[name.lower()] = sorted(ns[name])
    psrc = _read(os.path.join(repo, "mappyfile", "parser.py"))
    tree = ast.parse(psrc)
    sym = []
    for node in ast.walk(tree):
        if isinstance(node, ast.Assign) and any(
                isinstance(t, ast.Name) and t.id == "SYMBOL_ATTRIBUTES" for t in node.targets):
            sym = sorted(ast.literal_eval(node.value))
    out["symbol_attributes"] = sym
    return out


# ---------------------------------------------------------------- schemas
class Schemas:
    def __init__(self, repo=REPO):
        self.dir = os.path.join(repo, "mappyfile", "schemas")
        self.raw = {}
        for fn in sorted(os.listdir(self.dir)):
            if fn.endswith(".json"):
                self.raw[fn[:-5]] = json.loads(_read(os.path.join(self.dir, fn)))

    def object_types(self):
        return [n for n, s in self.raw.items()
                if s.get("type") == "object" and "properties" in s
                and "__type__" in s["properties"]] + (
            ["symbolset"] if "symbolset" in self.raw else [])

    def deref(self, s):
        """follow a top-level $ref; returns (schema, refname or None)"""
        name = None
        seen = 0
        while isinstance(s, dict) and "$ref" in s and seen < 10:
            name = s["$ref"].replace(".json", "")
            merged = dict(self.raw[name])
            for k, v in s.items():
                if k != "$ref":
                    merged.setdefault(k, v)
            s = merged
            seen += 1
        return s, name


def _num_bounds(s):
    b = {}
    for k in ("minimum", "maximum", "exclusiveMinimum", "exclusiveMaximum",
              "minLength", "maxLength"):
        if k in s:
            b[k] = s[k]
    return b


def _meta(s):
    md = s.get("metadata") or {}
    out = {}
    if "minVersion" in md:
        out["minv"] = md["minVersion"]
    if "maxVersion" in md:
        out["maxv"] = md["maxVersion"]
    return out


HEXPAT = "#("


def alternatives(sc: Schemas, s, inherited=None):
    """Flatten a property schema into the list of value alternatives it admits."""
    inherited = dict(inherited or {})
    s, refname = sc.deref(s)
    alts = []
    meta = _meta(s)
    outer_bounds = _num_bounds(s)

    def tag(a):
        for k, v in meta.items():
            a.setdefault(k, v)
        return a

    if refname in KV_TYPES:
        return [tag({"kind": "kv", "kvtype": refname})]
    if refname == "points":
        return [tag({"kind": "points"})]
    if refname == "projection":
        return [tag({"kind": "projection"})]
    if isinstance(s, dict) and s.get("type") == "object" and "properties" in s and \
            "__type__" in s["properties"]:
        return [tag({"kind": "object", "type": s["properties"]["__type__"]["enum"][0]})]
    for comb in ("oneOf", "anyOf", "allOf"):
        if comb in s:
            for sub in s[comb]:
                for a in alternatives(sc, sub):
                    a = dict(a)
                    a["via"] = comb
                    for k, v in outer_bounds.items():
                        a.setdefault("outer_" + k, v)
                    # entry-level metadata of the alternative stays on the alternative;
                    alts.append(a)
            return alts
    if "enum" in s:
        words = [w for w in s["enum"] if isinstance(w, str)]
        nums = [w for w in s["enum"] if isinstance(w, (int, float)) and not isinstance(w, bool)]
        if words:
            alts.append(tag({"kind": "enum", "words": words, "typed_string": s.get("type") == "string"}))
        if nums:
            alts.append(tag({"kind": "enumnum", "nums": nums}))
        return alts
    t = s.get("type")
    if isinstance(t, list):
        # "type": ["integer", "string"] is the union of the single-type schemas
        for ti in t:
            sub = dict(s)
            sub["type"] = ti
            for a in alternatives(sc, sub):
                a = dict(a)
                a.setdefault("via", "typelist")
                alts.append(a)
        return alts
    if t == "string":
        pat = s.get("pattern")
        a = {"kind": "str"}
        if pat:
            if pat.startswith("^\\[("):
                a = {"kind": "bind"}
            elif pat.startswith("^\\(("):
                a = {"kind": "expr"}
            elif pat.startswith("^/("):
                a = {"kind": "regex"}
            elif "#(" in pat:
                a = {"kind": "hex"}
            else:
                a = {"kind": "strpat", "pattern": pat}
                if "example" in s:
                    a["example"] = s["example"]
        if s.get("description"):
            a["description"] = s["description"]
        a.update(_num_bounds(s))
        return [tag(a)]
    if t in ("number", "integer"):
        a = {"kind": "int" if t == "integer" else "num"}
        a.update(_num_bounds(s))
        return [tag(a)]
    if t == "boolean":
        return [tag({"kind": "bool"})]
    if t == "array":
        items = s.get("items", {})
        a = {"kind": "array", "min": s.get("minItems"), "max": s.get("maxItems")}
        if isinstance(items, list):
            # tuple form: all our uses are homogeneous
            subs = [alternatives(sc, it) for it in items]
            a["items"] = subs[0] if subs else []
            a["tuple_form"] = True
            a["tuple_items"] = subs
        else:
            its, iref = sc.deref(items)
            if its.get("type") == "object" and "properties" in its and "__type__" in its["properties"]:
                return [tag({"kind": "objectlist", "type": its["properties"]["__type__"]["enum"][0],
                             "min": s.get("minItems"), "max": s.get("maxItems")})]
            if iref == "points":
                return [tag({"kind": "pointslist"})]
            a["items"] = alternatives(sc, items)
            # misplaced minItems inside items (style.offset): remember
            if "minItems" in its and a["min"] is None:
                a["min"] = its.get("minItems")
                a["max"] = its.get("maxItems")
                a["arity_from_items"] = True
        return [tag(a)]
    if t == "object":
        props = s.get("properties") or {}
        return [tag({"kind": "config" if props else "kv", "kvtype": "values",
                     "keys": sorted(props.keys())})]
    if "pattern" in s:
        a = {"kind": "hex" if "#(" in s["pattern"] else "strpat", "pattern": s["pattern"]}
        return [tag(a)]
    return [tag({"kind": "any"})]


def expand_pattern(pat):
    """keywords matched by a patternProperties regex made of literals and (a|b) groups; None when it is more general"""
    m = re.match(r"^\^(.*)\$$", pat)
    if not m:
        return None
    body = m.group(1)
    parts = [""]
    i = 0
    while i < len(body):
        ch = body[i]
        if ch == "(":
            j = body.find(")", i)
            if j < 0:
                return None
            alts = body[i + 1:j].split("|")
            if any(not re.match(r"^[a-z0-9_\-]*$", a) for a in alts):
                return None
            parts = [p + a for p in parts for a in alts]
            i = j + 1
        elif re.match(r"[a-z0-9_\-]", ch):
            parts = [p + ch for p in parts]
            i += 1
        else:
            return None
    return parts


def schema_tables(repo=REPO):
    sc = Schemas(repo)
    types = {}
    unexpanded = []
    for t in sc.object_types():
        s = sc.raw[t]
        props = {}
        allprops = list(s.get("properties", {}).items())
        # keywords a schema allows through patternProperties (other than the hidden-key pattern) are keywords too
        for pat, pv in (s.get("patternProperties") or {}).items():
            if pat == "^__[a-z]+__$":
                continue
            kws = expand_pattern(pat)
            if kws is None:
                unexpanded.append([t, pat])
                continue
            for kw in kws:
                if kw not in s.get("properties", {}):
                    allprops.append((kw, pv))
        for k, v in allprops:
            if k.startswith("__"):
                continue
            vd, _ = sc.deref(v)
            entry = {"alts": alternatives(sc, v)}
            entry.update(_meta(v if "metadata" in v else vd))
            if "default" in v:
                entry["default"] = v["default"]
            elif "default" in vd:
                entry["default"] = vd["default"]
            for comb in ("oneOf", "anyOf", "allOf"):
                if comb in vd:
                    entry["comb"] = comb
            entry["raw_top_keys"] = sorted(k2 for k2 in v.keys())
            props[k] = entry
        types[t] = {
            "props": props,
            "required": s.get("required", []),
            "additional": s.get("additionalProperties", True),
            "hidden_pattern": "^__[a-z]+__$" in (s.get("patternProperties") or {}),
        }
    simple = {n: s for n, s in sc.raw.items() if n not in types}
    return {"types": types, "other_schemas": sorted(simple.keys()), "pattern_unexpanded": unexpanded}


# ---------------------------------------------------------------- derived tables
def plural(s):
    return s + "es" if s.endswith("s") else s + "s"


def build(repo=REPO):
    g = grammar_tables(repo)
    t = token_tables(repo)
    s = schema_tables(repo)
    child_single = {}
    child_list = {}
    parents = {}
    for ty, td in s["types"].items():
        child_single[ty] = {}
        child_list[ty] = {}
        for k, e in td["props"].items():
            for a in e["alts"]:
                if a["kind"] == "object":
                    child_single[ty][k] = a["type"]
                    parents.setdefault(a["type"], []).append([ty, k, "single"])
                elif a["kind"] == "objectlist":
                    child_list[ty][k] = a["type"]
                    parents.setdefault(a["type"], []).append([ty, k, "list"])
                elif a["kind"] == "kv":
                    child_single[ty].setdefault(k, a["kvtype"])
    v = {"grammar": g, "tokens": t, "schema": s, "child_single": child_single,
         "child_list": child_list, "parents": parents}
    return v


# ---------------------------------------------------------------- TLA+ emission
def tla_str(x):
    return '"' + str(x).replace("\\", "\\\\").replace('"', '\\"') + '"'


def tla_set(xs):
    return "{" + ", ".join(xs) + "}"


def slot_shapes(vocab):
    """(type, keyword, shape, enum word or "") quadruples: the finite product C19 names.
    shape names are those used by spec/MapfileAST.tla"""
    out = []
    for ty, td in vocab["schema"]["types"].items():
        for k, e in td["props"].items():
            for a in e["alts"]:
                for sh in shapes_of_alt(a, k):
                    out.append((ty, k, sh[0], sh[1]))
    # dedupe, keep order
    seen = set()
    res = []
    for x in out:
        if x not in seen:
            seen.add(x)
            res.append(x)
    return res


def shapes_of_alt(a, key):
    """Map one schema alternative to the Mapfile value shapes that spell it.
    Returns a list of (shape, detail)."""
    k = a["kind"]
    if k == "enum":
        return [("enum", w) for w in a["words"]]
    if k == "enumnum":
        return [("int", "")]
    if k == "str":
        if a.get("maxLength") == 1:
            return [("char", "")]
        return [("str", "")]
    if k == "strpat":
        m = re.match(r"^\^([a-z]+)\$$", a.get("pattern", ""))
        if m:
            return [("strpat", m.group(1))]      # a string with one admissible spelling (CLUSTER REGION)
        return [("strpat", a.get("example", ""))]
    if k == "bind":
        return [("bind", "")]
    if k == "expr":
        # MapServer reads list expressions {a,b,c} only in CLASS / LABEL EXPRESSION
        # ... and case-insensitive string comparisons "text"i in EXPRESSION / FILTER
        if key == "expression":
            return [("expr", ""), ("listexpr", ""), ("istring", "")]
        if key == "filter":
            return [("expr", ""), ("istring", "")]
        return [("expr", "")]
    if k == "regex":
        # expression.json is referenced by many slots; MapServer reads /regex/ only in EXPRESSION / FILTER
        return [("regex", "")] if key in ("expression", "filter") else []
    if k == "hex":
        return [("hex", "")]
    if k == "int":
        return [("int", "")]
    if k == "num":
        return [("int", ""), ("float", "")]
    if k == "bool":
        return [("bool", "")]
    if k == "array":
        items = a.get("items") or []
        ik = sorted(set(i["kind"] for i in items))
        n = a.get("max") or a.get("min")
        if key in ("processing", "formatoption", "compfilter", "include"):
            return [("repeated", "")]
        if ik and all(i in ("int", "num") for i in ik):
            if n in (2, 3, 4, 6):
                return [("numlist%d" % n, "")]
            return [("numlist2", "")]
        if ik == ["str"] and n == 2:
            if key == "colorrange":
                return [("hexpair", "")]
            return [("bindpair", "")]
        if set(ik) <= {"num", "int", "bind"} and "bind" in ik:
            return [("numlist2", ""), ("bindpair", ""), ("mixedpair", "")]
        if ik == ["str"]:
            return [("strlist", "")]
        return [("array?", json.dumps(ik))]
    if k == "object":
        return [("block", a["type"])]
    if k == "objectlist":
        return [("blocklist", a["type"])]
    if k == "kv":
        return [("kv", a["kvtype"])]
    if k == "config":
        return [("config", "")]
    if k == "points":
        return [("points", "")]
    if k == "pointslist":
        return [("pointslist", "")]
    if k == "projection":
        return [("projection", "")]
    return [("any", "")]


def emit_tla(vocab, path):
    g, t, s = vocab["grammar"], vocab["tokens"], vocab["schema"]
    L = []
    L.append("---- MODULE Vocab ----")
    L.append("\\* GENERATED by harness/vocab.py from the current working tree of /repo. Do not edit.")
    L.append("GrammarBlockTypes == " + tla_set(tla_str(x) for x in g["block_types"]))
    L.append("GrammarBlockCI == " + tla_set(tla_str(x) for x, ci in g["block_case_insensitive"].items() if ci))
    L.append("GrammarKVTypes == " + tla_set(tla_str(x) for x in g["kv_types"]))
    L.append("GrammarHasSymbolset == " + ("TRUE" if g["symbolset"] else "FALSE"))
    L.append("AttrKeywordValues == " + tla_set(tla_str(x) for x in g["attr_keywords"]))
    L.append("Singletons == " + tla_set(tla_str(x) for x in t["singleton_composite_names"]))
    L.append("ObjectListKeys == " + tla_set(tla_str(x) for x in t["object_list_keys"]))
    L.append("RepeatedKeys == " + tla_set(tla_str(x) for x in t["repeated_keys"]))
    L.append("ComplexTypes == " + tla_set(tla_str(x) for x in t["complex_types"]))
    L.append("CompositeNames == " + tla_set(tla_str(x) for x in t["composite_names"]))
    L.append("SymbolAttributes == " + tla_set(tla_str(x.lower()) for x in t["symbol_attributes"]))
    L.append("SchemaTypes == " + tla_set(tla_str(x) for x in s["types"]))
    cs = []
    cl = []
    for ty in s["types"]:
        for k, c in vocab["child_single"][ty].items():
            cs.append("<<%s, %s, %s>>" % (tla_str(ty), tla_str(k), tla_str(c)))
        for k, c in vocab["child_list"][ty].items():
            cl.append("<<%s, %s, %s>>" % (tla_str(ty), tla_str(k), tla_str(c)))
    L.append("\\* <<parent type, key, child type>>")
    L.append("ChildSingle == " + tla_set(cs))
    L.append("ChildList == " + tla_set(cl))
    slots = slot_shapes(vocab)
    L.append("\\* <<type, keyword, shape, detail>>: every value alternative a schema lists")
    L.append("Slots == {")
    L.append(",\n".join("  <<%s, %s, %s, %s>>" % tuple(tla_str(x) for x in q) for q in slots))
    L.append("}")
    req = []
    for ty, td in s["types"].items():
        for r in td["required"]:
            req.append("<<%s, %s>>" % (tla_str(ty), tla_str(r)))
    L.append("Required == " + tla_set(req))
    # version annotations (x10 integers); NoMin = 0, NoMax = 10000
    ann = []
    for ty, td in s["types"].items():
        for k, e in td["props"].items():
            if "minv" in e or "maxv" in e:
                ann.append("<<%s, %s, %d, %d>>" % (tla_str(ty), tla_str(k),
                                                   round(e.get("minv", 0) * 10), round(e.get("maxv", 1000) * 10)))
    L.append("\\* <<type, keyword, minVersion*10, maxVersion*10>> keyword-level annotations")
    L.append("Annotated == " + tla_set(ann))
    dflt = []
    for ty, td in s["types"].items():
        for k, e in td["props"].items():
            if "default" in e:
                dflt.append("<<%s, %s>>" % (tla_str(ty), tla_str(k)))
    L.append("HasDefault == " + tla_set(dflt))
    # Draft-4 effective numeric bounds of plain number slots (a numeric exclusiveMinimum alone is not a Draft-4 bound)
    hmin, hmax = [], []
    for ty, td in s["types"].items():
        for k, e in td["props"].items():
            alts = e["alts"]
            if len(alts) == 1 and alts[0]["kind"] in ("int", "num") and "via" not in alts[0]:
                if "minimum" in alts[0]:
                    hmin.append("<<%s, %s>>" % (tla_str(ty), tla_str(k)))
                if "maximum" in alts[0]:
                    hmax.append("<<%s, %s>>" % (tla_str(ty), tla_str(k)))
    L.append("\\* <<type, pattern>>: patternProperties the extractor cannot turn into a finite keyword list")
    L.append("PatternUnexpanded == " + tla_set("<<%s, %s>>" % (tla_str(a), tla_str(b)) for a, b in s.get("pattern_unexpanded", [])))
    L.append("HasMin == " + tla_set(hmin))
    L.append("HasMax == " + tla_set(hmax))
    L.append("====")
    os.makedirs(os.path.dirname(path), exist_ok=True)
    with open(path, "w") as f:
        f.write("\n".join(L) + "\n")


_CACHE = {}


def get(repo=REPO, write=True):
    """Build (and cache per process) the vocabulary from the current tree."""
    if repo in _CACHE:
        return _CACHE[repo]
    v = build(repo)
    if write:
        # a copy for inspection only; nothing reads it back (TLC run directories get their own Vocab.tla)
        try:
            os.makedirs(BUILD, exist_ok=True)
            with open(os.path.join(BUILD, "vocab.%d.json" % os.getpid()), "w") as f:
                json.dump(v, f, indent=1, sort_keys=True)
            import atexit
            atexit.register(lambda p=os.path.join(BUILD, "vocab.%d.json" % os.getpid()): os.path.exists(p) and os.remove(p))
        except OSError:
            pass
    _CACHE[repo] = v
    return v


if __name__ == "__main__":
    v = get()
    sl = slot_shapes(v)
    print("types", len(v["schema"]["types"]), "slots", len(sl))
    from collections import Counter
    print(Counter(x[2] for x in sl))
    for x in sl:
        if x[2] in ("any", "array?", "strpat", "strlist"):
            print(x)
