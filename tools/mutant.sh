#!/bin/bash
# usage: tools/mutant.sh <name> <python-edit-snippet-file|-> CHECK [CHECK...]
# copies /repo to /tmp/mut_<name>, applies the edit (python code operating on variable R=repo path), runs checks, removes copy
name=$1; edit=$2; shift 2
M=/tmp/mut_$name
rm -rf $M; cp -r /repo $M; rm -rf $M/.git
R=$M /venv/bin/python "$edit" || { echo "edit failed"; rm -rf $M; exit 2; }
for c in "$@"; do
  VERIF_REPO=$M /venv/bin/python /verif/check.py $c --tier quick 2>&1 | grep "VIOLATION\|^C[0-9][0-9] \|MACH" | cut -c1-260 | head -${MUT_HEAD:-4}
done
rm -rf $M
