#!/bin/bash
# re-runs every seeded change under /verif/seeded/C* against the quick check of its own property (regression of the detection table)
for d in /verif/seeded/C[0-9][0-9]-*; do
  id=$(basename $d); p=${id%%-*}
  /venv/bin/python /verif/tools/seedrun.py $d $id $p 2>&1 | tail -1
done
