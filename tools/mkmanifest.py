#!/venv/bin/python
"""Writes /verif/MANIFEST.json from the table below and validates it against the schema."""
import json, os, sys
import jsonschema

V = "/verif"
PY = "/venv/bin/python"

CHECKS = {
 "C01": dict(cat="model_checking", technique="trace validation by TLC (spec/TraceRoundTrip.tla) of recorded load->dump->load executions; documents from spec/Reader.tla + SlotProbe.tla and the repository corpus",
   text="For every corpus file the parser accepts (all of them in the thorough tier), every point of the slot product and TLC-simulated documents, the typed projections of loads(t) and loads(dumps(loads(t))) are recorded and TLC decides TreeEq with exactly the two allowances the property names (enum letter case, number -> equal numeric string in string-typed slots, both decided from the extracted schema vocabulary) plus the clause that the written text is accepted.",
   note="Trusted: TLC, harness projection/interning (harness/project.py, tracecheck.py), CPython str.lower()/str(). Values in the documented exclusion classes are marked by the harness (contains output quote; looks like expression/regex/list/binding) and skipped by the spec per value; string contents sampled.",
   ref="7/C01"),
 "C03": dict(cat="model_checking", technique="TLA+ Writer contract (spec/Writer.tla, Editor.tla): TLC-generated documents and dict-API edit histories with predicted line events, compared with an independent reader's view of dumps output",
   text="TLC emits documents (slot product + simulated walks) and edit histories (set/replace/delete keyword, add/remove/reorder child objects, assign parsed snippets, read missing keys) together with the line events spec/Writer.tla predicts after every edit (or 'refuse'); the real dict is built and edited through the dict API, dumped, and an independent reader (harness/mapreader.py, never imports mappyfile) must see exactly those lines: kind, keyword, nesting level, lexical class and content of every value. Model-level: balanced line sequences, refusal only reachable through reading a missing key.",
   note="Trusted: TLC, harness/mapreader.py (self-tested on every run against a mappyfile-free reference rendering of the predicted events), concretise.py pools. Strings containing the output quote are not generated (documented exclusion).",
   ref="7/C03"),
 "C04": dict(cat="model_checking", technique="trace validation by TLC (spec/TraceOptions.tla JudgeIdem) over TLC-enumerated option sets (spec/Options.tla)",
   text="For (document, option set) pairs - option sets drawn as a pairwise cover (quick) or a sixth (thorough) of the 720-set product TLC enumerates - pass1=dumps(loads(src)), pass2=dumps(loads(pass1)) are produced by the real code; TLC requires equal byte digests, exactly equal reloaded projections, equal text when dumping again, and equal text from a second interpreter with another PYTHONHASHSEED.",
   note="TLC cannot hash bytes: digests are computed and interned by the harness; TLA+ contributes option enumeration, clause structure and the structural comparison. Trusted: sha1, harness projection.",
   ref="7/C04"),
 "C06": dict(cat="model_checking", technique="trace validation by TLC (spec/TraceOptions.tla) over the TLC-enumerated option cross product (spec/Options.tla)",
   text="TLC enumerates the full option product (9x2x2x3x2x2x2, 720 in scope) and the harness applies a pairwise cover (quick) or every set (thorough, generated docs) to generated documents and corpus files; TLC compares the projection of loads(dumps(d,opts)) with loads(dumps(d)) and, under separate_complex_types, checks per object that the key order is the stable partition simple|block-valued of the default order.",
   note="Trusted: TLC, harness projection. Documents with quote characters inside strings are left out, as the quantifier says.",
   ref="7/C06"),
 "C16": dict(cat="model_checking", technique="trace validation by TLC (spec/TraceLayout.tla): the printed text is the trace; stack machine over measured lines with the layout functions of spec/Options.tla",
   text="For (document, option set) pairs the independent reader measures every physical line of dumps output (nesting level from open/END structure, leading white space, value offset, END comment, line breaks); TLC re-derives indentation = level x indent x spacer, END at the opener's indentation, END comment = block type, the alignment column (first multiple of indent past the longest simple keyword) and that every break is newlinechar.",
   note="Trusted: TLC, harness/mapreader.py line measurement. Multi-line string continuation lines are exempt (as the property says); key-value block pair alignment and root-level METADATA blocks are outside the statement and not judged.",
   ref="7/C16"),

 "C02": dict(cat="model_checking", technique="TLA+ Reader contract (spec/Reader.tla): TLC model checking + TLC-generated behaviours replayed into loads, dict compared with the spec's prediction after every action",
   text="TLC exhaustively checks the Reader invariants on all documents of <=2 (thorough 3) builder actions over the whole extracted vocabulary; every point of the slot product (type x keyword x value alternative x position, ~4.9k documents) and TLC-simulated random documents (nesting <=5, up to 400 items) are rendered by an independent renderer and loaded by the real code, and the typed, ordered projection of the result must equal the dict the TLA+ contract predicts - per builder action on short walks.",
   note="Trusted: TLC, the renderer harness/concretise.py (lexeme pools, content function), CPython int()/float()/str.lower(). String contents are sampled from pools (seeded), not enumerated. Worker objects are reused; the public loads is sampled.",
   ref="7/C02"),
}

PENDING = ["C01","C03","C04","C05","C06","C07","C08","C09","C10","C11","C12","C13","C14","C15","C16","C17","C18","C19","C20"]

def main():
    checks = []
    for pid, c in sorted(CHECKS.items()):
        checks.append({
            "property_id": pid,
            "quick_cmd": "%s %s/check.py %s --tier quick" % (PY, V, pid),
            "thorough_cmd": "%s %s/check.py %s --tier thorough" % (PY, V, pid),
            "evidence_file": "%s/evidence/%s.json" % (V, pid),
            "replay_cmd_template": "%s %s/check.py %s --replay {path}" % (PY, V, pid),
            "engine": "tlc+replay",
            "level_claimed": {"category": c["cat"], "text": c["text"], "design_ref": "DESIGN.md section " + c["ref"]},
            "level_note": c["note"],
            "technique": c["technique"],
        })
    m = {
        "version": 1,
        "setup_cmd": "%s %s/check.py setup" % (PY, V),
        "hooks": {"guard": "MAPPYFILE_VERIF",
                  "enable": "no source hooks are compiled into /repo: the harness installs its seams at run time (lark InteractiveParser.iter_parse wrapper, class __init__ wrappers); MAPPYFILE_VERIF=1 is exported by the harness for any future guarded hook",
                  "baseline_off_cmd": "cd /repo && /venv/bin/python -m pytest -ra -q -p no:cacheprovider --timeout=900 --continue-on-collection-errors",
                  "source_commits": [], "add_only": True},
        "engines": [{"name": "tlc+replay", "path": "/verif/check.py", "serves_properties": sorted(CHECKS),
                     "kind_free_text": "TLA+ specifications under /verif/spec checked by TLC 1.8; behaviours emitted by TLC are replayed into the implementation and traces recorded from the implementation are validated by TLC"}],
        "checks": checks,
        "not_applicable": [{"property_id": p, "reason": "check not built yet in this round (planned, see DESIGN.md section 7)"} for p in PENDING if p not in CHECKS],
        "notes": "Known findings: /verif/known_findings.json. Seeded changes: /verif/seeded/. Exit 2 = machinery failure.",
    }
    json.dump(m, open(os.path.join(V, "MANIFEST.json"), "w"), indent=1)
    jsonschema.validate(m, json.load(open("/root/.vp/MANIFEST.schema.json")))
    print("MANIFEST ok: %d checks, %d not_applicable" % (len(checks), len(m["not_applicable"])))

if __name__ == "__main__":
    main()
