#!/venv/bin/python
"""Writes /verif/MANIFEST.json from the table below and validates it against the schema."""
import json, os, sys
import jsonschema

V = "/verif"
PY = "/venv/bin/python"

CHECKS = {
 "C02": dict(cat="model_checking", technique="TLA+ Reader contract (spec/Reader.tla): TLC model checking + TLC-generated behaviours replayed into loads, dict compared with the spec's prediction after every action",
   text="TLC exhaustively checks the Reader invariants on all documents of <=2 (thorough 3) builder actions over the whole extracted vocabulary; every point of the slot product (type x keyword x value alternative x position, ~4.9k documents) and TLC-simulated random documents (nesting <=5, up to 400 items) are rendered by an independent renderer and loaded by the real code, and the typed, ordered projection of the result must equal the dict the TLA+ contract predicts - per builder action on short walks.",
   note="Trusted: TLC, the renderer harness/concretise.py (lexeme pools, content function), CPython int()/float()/str.lower(). String contents are sampled from pools (seeded), not enumerated. Worker objects are reused; the public loads is sampled.",
   ref="7/C02"),
}

PENDING = ["C01","C03","C04","C05","C06","C07","C08","C09","C10","C11","C12","C13","C14","C15","C16","C17","C18","C19","C20"]

def main():
    checks = []
    for pid, c in sorted(CHECKS.items()):
        checks.append({
            "property_id": pid,
            "quick_cmd": "%s %s/check.py %s --tier quick" % (PY, V, pid),
            "thorough_cmd": "%s %s/check.py %s --tier thorough" % (PY, V, pid),
            "evidence_file": "%s/evidence/%s.json" % (V, pid),
            "replay_cmd_template": "%s %s/check.py %s --replay {path}" % (PY, V, pid),
            "engine": "tlc+replay",
            "level_claimed": {"category": c["cat"], "text": c["text"], "design_ref": "DESIGN.md section " + c["ref"]},
            "level_note": c["note"],
            "technique": c["technique"],
        })
    m = {
        "version": 1,
        "setup_cmd": "%s %s/check.py setup" % (PY, V),
        "hooks": {"guard": "MAPPYFILE_VERIF",
                  "enable": "no source hooks are compiled into /repo: the harness installs its seams at run time (lark InteractiveParser.iter_parse wrapper, class __init__ wrappers); MAPPYFILE_VERIF=1 is exported by the harness for any future guarded hook",
                  "baseline_off_cmd": "cd /repo && /venv/bin/python -m pytest -ra -q -p no:cacheprovider --timeout=900 --continue-on-collection-errors",
                  "source_commits": [], "add_only": True},
        "engines": [{"name": "tlc+replay", "path": "/verif/check.py", "serves_properties": sorted(CHECKS),
                     "kind_free_text": "TLA+ specifications under /verif/spec checked by TLC 1.8; behaviours emitted by TLC are replayed into the implementation and traces recorded from the implementation are validated by TLC"}],
        "checks": checks,
        "not_applicable": [{"property_id": p, "reason": "check not built yet in this round (planned, see DESIGN.md section 7)"} for p in PENDING if p not in CHECKS],
        "notes": "Known findings: /verif/known_findings.json. Seeded changes: /verif/seeded/. Exit 2 = machinery failure.",
    }
    json.dump(m, open(os.path.join(V, "MANIFEST.json"), "w"), indent=1)
    jsonschema.validate(m, json.load(open("/root/.vp/MANIFEST.schema.json")))
    print("MANIFEST ok: %d checks, %d not_applicable" % (len(checks), len(m["not_applicable"])))

if __name__ == "__main__":
    main()
