#!/venv/bin/python
"""Writes /verif/MANIFEST.json from the table below and validates it against the schema."""
import json, os, sys
import jsonschema

V = "/verif"
PY = "/venv/bin/python"

CHECKS = {
 "C10": dict(cat="model_checking", technique="TLA+ expression model (spec/Expr.tla: precedence-climbing Denote, builder machine) model-checked incl. negative configs; TLC-generated expression trees replayed into the parser; recorded token traces validated by TLC (spec/TraceExpr.tla)",
   text="TLC checks NoRegroup / FlatKept / Wrapped / Stable / RoundTrip for the contract expression rule on all trees of <=3 (thorough 4) operator nodes, runs the model of the implementation's own builders as a lead finder and must reject three negative configurations (OR/AND swapped, and/or or comparison builders without parentheses). It emits every well-typed tree shape x every root operator spelling (and again with function-call leaves) plus simulated trees up to 12 operators; each is rendered with concrete operands in the six host positions, loaded, dumped and re-loaded by the real code; the token sequences of source, stored string, printed text and re-loaded string are validated by TLC: same denotation under MapServer's ladder, operands and operator spellings unchanged and in order (&& || ! -> AND OR NOT), printed = stored, reload = stored.",
   note="Trusted: TLC, harness/exprtok.py (independent tokenizer/renderer, no mappyfile imports). Generation is typed the way MapServer types expressions; sources the grammar rejects are skipped and counted (acceptance is not C10). % is a comparison-level operator in this grammar, as the property says.",
   ref="7/C10 and 13.5"),
 "C12": dict(cat="model_checking", technique="TLA+ call/worker-object model (spec/Calls.tla) model-checked under fresh and shared policies incl. six negative configs; purity traces validated by TLC (spec/TraceCalls.tla); TLC-generated call histories and thread schedules forced on the real code through run-time seams",
   text="TLC checks ArgsUnchanged (action property) and SeqEquivalent for every interleaving of 2 (thorough 3) threads under the fresh-object policy and every history of <=4 (6) calls on reused workers, and must reject six negative configurations (shared parser, shared validator, buffer not cleared, cache key without version, lower-casing in place, find inserting). Verdict from the real code: (a) every public call on generated and corpus documents is bracketed by deep snapshots of all arguments, each record judged by TLC with the UNCHANGED clause of its call kind; (b) TLC-simulated call histories replayed on one set of reused worker objects must equal fresh-object results and the abstract value the spec attaches; (c) every interleaving of two (three) calls at model program counters is enumerated by TLC and forced on real threads through class-level wrappers installed at run time; (d) a free-running 16-thread stress run under a 1e-6 s switch interval.",
   note="Trusted: TLC, snapshot/digest code, the seam wrappers (harness/c12lib.py), CPython threading. Seam granularity = wrapped methods and token groups; preemption inside a bytecode sequence only in the stress run. Schedule waits carry deadlines: a stuck schedule is exit 2, never a violation.",
   ref="7/C12 and 13.5"),
 "C20": dict(cat="model_checking", technique="TLA+ front-end model (spec/Frontend.tla) model-checked incl. four negative variants; every TLC-emitted command configuration realised with real files and CLI subprocesses; API call behaviours over character-class strings replayed",
   text="TLC checks the exit rule (total, zero iff all good, exact when it fits), one line per message, format = save(open()), schema = API export, reader agreement, writer agreement and string survival on all 4,095 validate + 1,620 format + 8 schema configurations and all api documents of <=2 strings x 19 character kinds x 40 layouts, and must reject four broken variants. The harness realises each emitted configuration with real files under /tmp and real subprocesses importing the tree under test: exit status, stdout line counts, summary numbers, format output bytes vs save(open()) under the resolved options, schema bytes vs the API; generated documents whose strings are drawn from 19 kinds (Latin-1, CJK, astral, NBSP, RTL, combining, BOM, U+2028/9, NEL, FF, VT, TAB, LF/CR/CRLF inside a value) are replayed call by call through open/load/loads and save/dump/dumps.",
   note="Trusted: TLC, the fixture strings (self-checked against the spec's class runs), the OS for files / processes / exit statuses. Quick draws 60 + 28 + 8 of the 5,723 emitted configurations, thorough all.",
   ref="7/C20 and 13.5"),

 "C09": dict(cat="model_checking", technique="TLA+ Validator cache/contract model (spec/Validator.tla) model-checked incl. a negative config; TLC-emitted probe and schema tables and call histories replayed into Validator / module API / CLI export",
   text="TLC checks CacheSound and HistoryIndependent on all call histories of <=3 (thorough 4) calls and must reject the config whose cache key lacks the version. It prints the expected verdict for every annotated schema entry (106: keywords, oneOf/anyOf alternatives, objects) x {no version, min-0.1, min, max, max+0.1} x every root->type context, the expected content of get_versioned_schema for 20 schema names x 29 versions, and simulated plus exhaustive two-call histories; the real Validator.validate / get_versioned_schema / create / mappyfile.validate / CLI export are compared row by row and after every call; unannotated faults must be judged identically with and without a version.",
   note="Trusted: TLC, harness/versions.py extraction of annotations and probe values from the schema files. version=0 (falsy) is not generated: not a MapServer version.",
   ref="7/C09 and 13.5"),
 "C11": dict(cat="model_checking", technique="TLA+ parse-loop model (spec/ParseLoop.tla): TLC-enumerated token soups and mutation behaviours replayed into the real parser; per-token traces from the iter_parse seam validated by TLC (spec/TraceParseLoop.tla)",
   text="TLC enumerates every soup of <=3 (thorough 4-5) token classes over a 35-class alphabet at the bare root and after each root opener, random long soups, all single/double class-level mutations of canonical documents and index-level mutations applied to the 433 corpus files and generated documents, each with the allowed outcome set from the spec; the real Parser+MapfileToDict must end in a dict or a LarkError with usable line/column, and every block type must be accepted at the root. Retyping decisions recorded through the run-time seam are replayed by TLC (mechanism drift only).",
   note="The timing clause is measured (24 repetitive shapes, CPU time over a x100 length range, 20x threshold), not decided by the model. Trusted: TLC, harness/parseloop.py lexeme pools and outcome classifier (cross-checked against TLC's OutcomeOK on sampled traces).",
   ref="7/C11 and 13.5"),
 "C15": dict(cat="model_checking", technique="TLA+ include-expansion machine (spec/Includes.tla) model-checked incl. liveness under weak fairness and six negative configs; TLC-simulated include graphs realised on disk and replayed through open/load/loads",
   text="TLC checks on all bounded include graphs (<=1 back edge, <=1 missing target) that a finished expansion equals recursive substitution, the stack never exceeds 6, the depth error occurs iff some chain is longer than 5, resolution is against the root file's directory, and that the machine halts (leads-to under WF of the machine step; the only liveness property of the suite). Simulated graphs with the expected chunk sequence or permitted error class are realised as nested directories (relative/absolute, quoted/unquoted names, trailing comments, LF/CRLF) around a cut Reader document and loaded through open, load and loads from foreign working directories; the dict must equal that of the uncut text; expand_includes=False must keep and re-print the directives.",
   note="Trusted: TLC, the cutting/laying-out code in harness/checks/c15.py. Paths with spaces are out of scope.",
   ref="7/C15 and 13.5"),
 "C17": dict(cat="model_checking", technique="TLA+ dict object model (spec/DictObj.tla refining spec/PlainOD.tla): exhaustive reachable graph, one implementation test per transition, plus simulated walks",
   text="TLC explores every history of the listed operations up to the bound over keys {a,A,b,B,layers,LAYERS}, both factories, with a heap of value identities, checking KeysLowerUnique, FirstInsertionOrder, CopyLaws, AutoCreation and refinement of a plain ordered dict keyed by lower-cased keys; four broken spec variants must be rejected. Every transition of the graph (304k quick / 3.0M thorough) is printed once and replayed on the real class from the empty dict (result or exception class, items with identities, class and default_factory of copies); depth-40 simulated walks continue on copies.",
   note="Trusted: TLC, the spec-id <-> Python-object bijection in harness/checks/c17.py. Non-string keys only probed for not crashing key folding.",
   ref="7/C17 and 13.5"),
 "C18": dict(cat="model_checking", technique="TLA+ update/find contract (spec/DictUtils.tla): laws model-checked on every enumerated case; each case with its expected result replayed through the real helpers on plain and Mapfile dicts",
   text="TLC enumerates (d1, patch, overwrite) cases and (list, key, value) cases over bounded universes, checks the relational laws (untouched keys untouched, overwrite=False never replaces, None skips, extras appended, deletes delete, find operators leave their list unchanged) and prints each case with the expected result and post-state; the real update/find/findall/findunique/findkey are run on plain dicts, Mapfile dicts and Mapfile dicts with Mapfile patches and compared (typed ordered structure, result is d1, patch unchanged, found items are the very list items). Simulated patch histories are chained.",
   note="Trusted: TLC, concretisation in harness/checks/c18.py. Unspecified corners (delete of an absent key, top-level __delete__, empty-list patches, keys differing only in case, falsy values) are not generated.",
   ref="7/C18 and 13.5"),

 "C19": dict(cat="model_checking", technique="TLC evaluates the vocabulary rules (spec/VocabRules.tla) on constants extracted from the current tree; the finite slot product enumerated exhaustively by TLC (spec/SlotProbe.tla) is replayed through loads/dumps/loads/validate; create() x versions",
   text="Part 1: TLC evaluates twelve rules relating the grammar's block types, the tokens.py / parser.py tables and the schemas (block type <-> schema, singleton vs plural storage in every parent schema, object-list keys, repeated keywords, SYMBOL first-keyword table, printer assertion) and emits the offenders. Part 2: every point of type x (root | parent context) x keyword x value alternative x position (about 6.8k probes) is rendered with a schema-valid representative in MapServer's spelling and must load, print with the keyword found by the printer's schema lookup, re-load and validate. Part 3: create(type, version) for 19 types x 8 versions must print, re-load and validate apart from missing-required messages (every declared default valid for its own keyword). The product is enumerated exhaustively.",
   note="Trusted: TLC, harness/vocab.py extraction (stdlib only, own $ref resolver), ValidRenderer value selection, reference schema evaluation (representatives the reference itself rejects make no validate claim). Parent contexts are one level (every (parent, key) pair of the schemas).",
   ref="7/C19"),

 "C07": dict(cat="model_checking", technique="TLA+ fault machine (spec/Faults.tla): TLC-generated documents + injected faults + verdict-preserving variants with the predicted message names, replayed into validate; reference schema evaluation as filter and emptiness oracle",
   text="TLC emits documents with 0..2 faults of seven kinds (enum-outside, below-min, above-max, wrong-arity, wrong-type, element-wrong-type inside list-valued keywords, unknown-keyword, missing-required) at any depth / list index, one of five variants (none, upper-case keys, upper-case values, hidden keys, list of roots) and the names the messages must carry; the harness renders a schema-valid document with slot-aware values, loads it, injects through the dict API and checks: validate returns; no fault => no message; every predicted name is named; the variant leaves the verdict unchanged; emptiness equals the reference evaluation of the published schema; the module-level API accepts a valid minimal document of every root type.",
   note="Trusted: TLC, jsonschema Draft4 evaluated with an own file registry (the property defines the verdict as schema conformance; documents the reference rejects before injection or still accepts after it are discarded and counted, > 50% discards is a machinery failure), harness/faults.py value selection.",
   ref="7/C07"),

 "C05": dict(cat="model_checking", technique="TLA+ Surface renderings (spec/Surface.tla) as stuttering steps of the Reader contract: TLC-enumerated deviations and random rendering vectors replayed into loads; corpus perturbations judged by TLC",
   text="TLC enumerates every single (thorough: also pairwise) deviation from the canonical rendering at token positions 1..12 - separator kind (spaces, tab, form feed, LF, CRLF, blank lines, # comment, /* */ comment incl. multi-line), letter case of the keyword, quote style / bare word of the string - and draws random rendering vectors for simulated documents; every rendering must load to the dict spec/Reader.tla predicts. All (key variant x value variant) pairs are run for the string slots in the delicate parse-loop contexts (after SYMBOL, STYLE, NAME ...). Corpus files: separators/comments inserted at real token gaps (token boundaries from the iter_parse seam), equality with the unperturbed load decided by TLC.",
   note="Trusted: TLC, harness/surface.py + concretise.py (which tokens are keywords / quotable / bare-able). Enumerated-value words keep their case (their case is content). Gaps inside {..} list expressions are not perturbed.",
   ref="7/C05"),
 "C08": dict(cat="model_checking", technique="trace validation by TLC (spec/TracePositions.tla cursor machine) of __position__ data recorded from the real loader over TLC-generated documents and renderings",
   text="For TLC-generated documents (no duplicate keywords) in the canonical layout and under random renderings (several keywords per line, values on other lines, tabs, CRLF, comments, multi-line strings) the harness records the text as separator/token pieces (length, line breaks, last-line length) and every __position__ entry of the loaded dict; TLC recomputes each token's (line, column) and requires opener / keyword positions to match exactly and value positions to lie inside their tokens in source order.",
   note="Trusted: TLC, the pairing of dict entries with tokens in harness/checks/c08.py. Validation-message locations come from the C07 fault runs on documents loaded with include_position=True (keyword token for value faults, opener for object faults). CONFIG sub-key positions are not judged.",
   ref="7/C08"),

 "C13": dict(cat="model_checking", technique="trace validation by TLC (spec/TraceComments.tla JudgeTransparent) of loads under the 4 flag combinations x {loads, open, load}; documents and comment placements generated by TLC (spec/Comments.tla)",
   text="Every generated document (with TLC-chosen comment placements) and corpus file is loaded plainly and under the other flag combinations through loads, open and load; TLC requires for each variant: projection without hidden keys equal to the plain load's, only the hidden keys the flags allow, no __position__ data in the printed text, printed line events apart from comments equal to the plain dictionary's.",
   note="Trusted: TLC, harness projection, harness/mapreader.py for the comment-free line events. Worker objects are reused (Parser.parse / parse_file / load are what loads / open / load call).",
   ref="7/C13"),
 "C14": dict(cat="model_checking", technique="TLA+ comment-flow model (spec/Comments.tla) checked by TLC + TLC-generated comment placements replayed + trace validation (spec/TraceComments.tla)",
   text="TLC generates documents without duplicate keywords and comment placements (# and /* */, end-of-line and above slots), marks each as claimed/unclaimed by the property and checks in the flow model that claimed comments stay on their item and nothing is attached twice; the harness renders, loads with include_comments, dumps; the independent reader locates every printed comment; TLC decides multiset inclusion printed <= source (verbatim, none invented or duplicated), equal content with/without comments, and for every claimed comment that it sits at the end of its keyword's line / directly above its block's opener. Corpus files (source comments = what the lexer callbacks captured): multiset and content clauses.",
   note="Trusted: TLC, harness/comments.py segmentation (printer joins several comments of one keyword with spaces), mapreader. For corpus files the source comment list is taken from Parser._comments (capture itself is covered on generated documents, where the source comments are known by construction).",
   ref="7/C14"),

 "C01": dict(cat="model_checking", technique="trace validation by TLC (spec/TraceRoundTrip.tla) of recorded load->dump->load executions; documents from spec/Reader.tla + SlotProbe.tla and the repository corpus",
   text="For every corpus file the parser accepts (all of them in the thorough tier), every point of the slot product and TLC-simulated documents, the typed projections of loads(t) and loads(dumps(loads(t))) are recorded and TLC decides TreeEq with exactly the two allowances the property names (enum letter case, number -> equal numeric string in string-typed slots, both decided from the extracted schema vocabulary) plus the clause that the written text is accepted. Quoting boundary: spec/Quoting.tla (TLC: RoundTripLaw, TailLaw over all strings of <=4/5 letters of a 5-letter alphabet, both quotes, every following text) and the replay of all its behaviours through text->dict->text->dict in eight kinds of string slot.",
   note="Trusted: TLC, harness projection/interning (harness/project.py, tracecheck.py), CPython str.lower()/str(). Values in the documented exclusion classes are marked by the harness (contains output quote; looks like expression/regex/list/binding) and skipped by the spec per value; string contents sampled from pools except for the quoting family, which is enumerated. Public mappyfile.loads / dumps are sampled (every 250th / 5th call).",
   ref="7/C01"),
 "C03": dict(cat="model_checking", technique="TLA+ Writer contract (spec/Writer.tla, Editor.tla): TLC-generated documents and dict-API edit histories with predicted line events, compared with an independent reader's view of dumps output",
   text="TLC emits documents (slot product + simulated walks) and edit histories (set/replace/delete keyword, add/remove/reorder child objects, assign parsed snippets, read missing keys) together with the line events spec/Writer.tla predicts after every edit (or 'refuse'); the real dict is built and edited through the dict API, dumped, and an independent reader (harness/mapreader.py, never imports mappyfile) must see exactly those lines: kind, keyword, nesting level, lexical class and content of every value. Model-level: balanced line sequences, refusal only reachable through reading a missing key. The three public writers (dumps, dump, save) must write the printer's text; the quoting family of spec/Quoting.tla is written through the dict API and must appear as q content q in every kind of string slot, contents without representation refused.",
   note="Trusted: TLC, harness/mapreader.py (self-tested on every run against a mappyfile-free reference rendering of the predicted events), concretise.py pools. Strings containing the output quote are not generated (documented exclusion).",
   ref="7/C03"),
 "C04": dict(cat="model_checking", technique="trace validation by TLC (spec/TraceOptions.tla JudgeIdem) over TLC-enumerated option sets (spec/Options.tla)",
   text="For (document, option set) pairs - option sets drawn as a pairwise cover (quick) or a sixth (thorough) of the 720-set product TLC enumerates - pass1=dumps(loads(src)), pass2=dumps(loads(pass1)) are produced by the real code; TLC requires equal byte digests, exactly equal reloaded projections, equal text when dumping again, and equal text from a second interpreter with another PYTHONHASHSEED.",
   note="TLC cannot hash bytes: digests are computed and interned by the harness; TLA+ contributes option enumeration, clause structure and the structural comparison. Trusted: sha1, harness projection.",
   ref="7/C04"),
 "C06": dict(cat="model_checking", technique="trace validation by TLC (spec/TraceOptions.tla) over the TLC-enumerated option cross product (spec/Options.tla)",
   text="TLC enumerates the full option product (9x2x2x3x2x2x2, 720 in scope) and the harness applies a pairwise cover (quick) or every set (thorough, generated docs) to generated documents and corpus files; TLC compares the projection of loads(dumps(d,opts)) with loads(dumps(d)) and, under separate_complex_types, checks per object that the key order is the stable partition simple|block-valued of the default order.",
   note="Trusted: TLC, harness projection. Documents with quote characters inside strings are left out, as the quantifier says.",
   ref="7/C06"),
 "C16": dict(cat="model_checking", technique="trace validation by TLC (spec/TraceLayout.tla): the printed text is the trace; stack machine over measured lines with the layout functions of spec/Options.tla",
   text="For (document, option set) pairs the independent reader measures every physical line of dumps output (nesting level from open/END structure, leading white space, value offset, END comment, line breaks); TLC re-derives indentation = level x indent x spacer, END at the opener's indentation, END comment = block type, the alignment column (first multiple of indent past the longest simple keyword) and that every break is newlinechar.",
   note="Trusted: TLC, harness/mapreader.py line measurement. Multi-line string continuation lines are exempt (as the property says); key-value block pair alignment and root-level METADATA blocks are outside the statement and not judged.",
   ref="7/C16"),

 "C02": dict(cat="model_checking", technique="TLA+ Reader contract (spec/Reader.tla): TLC model checking + TLC-generated behaviours replayed into loads, dict compared with the spec's prediction after every action",
   text="TLC exhaustively checks the Reader invariants on all documents of <=2 (thorough 3) builder actions over the whole extracted vocabulary; every point of the slot product (type x keyword x value alternative x position, ~4.9k documents) and TLC-simulated random documents (nesting <=5, up to 400 items) are rendered by an independent renderer and loaded by the real code, and the typed, ordered projection of the result must equal the dict the TLA+ contract predicts - per builder action on short walks. The quoting family of spec/Quoting.tla (every source lexeme the string terminal covers) must load verbatim.",
   note="Trusted: TLC, the renderer harness/concretise.py (lexeme pools, content function), CPython int()/float()/str.lower(). String contents are sampled from pools (seeded), not enumerated. Worker objects are reused; the public loads is sampled.",
   ref="7/C02"),
}

PENDING = ["C01","C03","C04","C05","C06","C07","C08","C09","C10","C11","C12","C13","C14","C15","C16","C17","C18","C19","C20"]

def main():
    checks = []
    for pid, c in sorted(CHECKS.items()):
        checks.append({
            "property_id": pid,
            "quick_cmd": "%s %s/check.py %s --tier quick" % (PY, V, pid),
            "thorough_cmd": "%s %s/check.py %s --tier thorough" % (PY, V, pid),
            "evidence_file": "%s/evidence/%s.json" % (V, pid),
            "replay_cmd_template": "%s %s/check.py %s --replay {path}" % (PY, V, pid),
            "engine": "tlc+replay",
            "level_claimed": {"category": c["cat"], "text": c["text"], "design_ref": "DESIGN.md section " + c["ref"]},
            "level_note": c["note"],
            "technique": c["technique"],
        })
    m = {
        "version": 1,
        "setup_cmd": "%s %s/check.py setup" % (PY, V),
        "hooks": {"guard": "MAPPYFILE_VERIF",
                  "enable": "no source hooks are compiled into /repo: the harness installs its seams at run time (lark InteractiveParser.iter_parse wrapper, class __init__ wrappers); MAPPYFILE_VERIF=1 is exported by the harness for any future guarded hook",
                  "baseline_off_cmd": "cd /repo && /venv/bin/python -m pytest -ra -q -p no:cacheprovider --timeout=900 --continue-on-collection-errors",
                  "source_commits": [], "add_only": True},
        "engines": [{"name": "tlc+replay", "path": "/verif/check.py", "serves_properties": sorted(CHECKS),
                     "kind_free_text": "TLA+ specifications under /verif/spec checked by TLC 1.8; behaviours emitted by TLC are replayed into the implementation and traces recorded from the implementation are validated by TLC"}],
        "checks": checks,
        "not_applicable": [{"property_id": p, "reason": "check not built yet in this round (planned, see DESIGN.md section 7)"} for p in PENDING if p not in CHECKS],
        "notes": "Known findings: /verif/known_findings.json. Seeded changes: /verif/seeded/. Exit 2 = machinery failure.",
    }
    json.dump(m, open(os.path.join(V, "MANIFEST.json"), "w"), indent=1)
    jsonschema.validate(m, json.load(open("/root/.vp/MANIFEST.schema.json")))
    print("MANIFEST ok: %d checks, %d not_applicable" % (len(checks), len(m["not_applicable"])))

if __name__ == "__main__":
    main()
