#!/bin/bash
# usage: tools/benignrun.sh <n> [CHECK...]  - runs quick checks against /repo + behaviour-preserving refactoring n
n=$1; shift
checks=${@:-C01 C02 C03 C04 C05 C06 C07 C08 C09 C10 C11 C12 C13 C14 C15 C16 C17 C18 C19 C20}
M=/tmp/benign_$n
rm -rf $M; cp -r /repo $M; rm -rf $M/.git
(cd $M && git apply --whitespace=nowarn /verif/seeded/benign/$n/patch.diff) || { echo "benign $n: PATCH FAILED"; rm -rf $M; exit 2; }
for c in $checks; do
  out=$(VERIF_REPO=$M /venv/bin/python /verif/check.py $c --tier quick 2>&1); rc=$?
  echo "benign $n $c exit=$rc $(echo "$out" | grep -c '^VIOLATION') violations $(echo "$out" | grep '^VIOLATION\|^MACHINERY' | head -2 | cut -c1-220)"
done
rm -rf $M
